"""Self-test of vf.pqwrite against the real engine: `cd /verif && python3 -m vf.pqwrite_selftest`.

Writes a matrix of small Parquet files (physical type x logical annotation x encoding x
nullability pattern x page version x codec x page size x row-group shape x dictionary
fallback x level style x stats mode), reads each with read_parquet under three session
settings and compares schema and rows with pqwrite.engine_type / engine_value.
Options: --seed N, --keep (keep files), -v (print every mismatch in full).
"""
import json
import os
import random
import shutil
import sys
from collections import OrderedDict

from . import pqwrite as pq
from . import run

DIR = os.path.join(run.TMPROOT, 'pq-selftest')

TYPES = [  # (phys, logical, extra Col kwargs)
    ('BOOLEAN', None, {}),
    ('INT32', None, {}), ('INT32', 'INT8', {}), ('INT32', 'INT16', {}), ('INT32', 'INT32', {}),
    ('INT32', 'UINT8', {}), ('INT32', 'UINT16', {}), ('INT32', 'UINT32', {}), ('INT32', 'DATE', {}),
    ('INT32', 'DECIMAL', dict(precision=9, scale=2)), ('INT32', 'DECIMAL', dict(precision=1, scale=0)),
    ('INT32', 'TIME_MILLIS', {}),
    ('INT64', None, {}), ('INT64', 'INT64', {}), ('INT64', 'UINT64', {}),
    ('INT64', 'DECIMAL', dict(precision=18, scale=4)), ('INT64', 'DECIMAL', dict(precision=5, scale=5)),
    ('INT64', 'TIMESTAMP_MILLIS', {}), ('INT64', 'TIMESTAMP_MICROS', {}), ('INT64', 'TIMESTAMP_NANOS', {}),
    ('INT64', 'TIMESTAMP_MICROS', dict(utc=False)),
    ('INT64', 'TIME_MICROS', {}), ('INT64', 'TIME_NANOS', {}),
    ('INT96', None, {}), ('FLOAT', None, {}), ('DOUBLE', None, {}),
    ('BYTE_ARRAY', None, {}), ('BYTE_ARRAY', 'STRING', {}), ('BYTE_ARRAY', 'ENUM', {}),
    ('BYTE_ARRAY', 'JSON', {}), ('BYTE_ARRAY', 'BSON', {}),
    ('BYTE_ARRAY', 'DECIMAL', dict(precision=10, scale=2)), ('BYTE_ARRAY', 'DECIMAL', dict(precision=30, scale=3)),
    ('FIXED_LEN_BYTE_ARRAY', None, dict(type_length=5)), ('FIXED_LEN_BYTE_ARRAY', 'FLOAT16', {}),
    ('FIXED_LEN_BYTE_ARRAY', 'UUID', {}), ('FIXED_LEN_BYTE_ARRAY', 'INTERVAL', {}),
    ('FIXED_LEN_BYTE_ARRAY', 'DECIMAL', dict(type_length=8, precision=18, scale=6)),
    ('FIXED_LEN_BYTE_ARRAY', 'DECIMAL', dict(type_length=16, precision=38, scale=0)),
]
NULLPAT = ['required', 'none', 'sparse', 'dense', 'all', 'alternating', 'longruns']
CODECS = ['UNCOMPRESSED', 'GZIP', 'SNAPPY', 'LZ4_RAW', 'ZSTD']
PAGEVALS = [1, 2, 7, 100, None]
RGSHAPES = [(37,), (20, 0, 9), (0,), (130, 1, 300), (0, 15), (8, 8)]
DICTMAX = [None, 0, 1, 3, 6]
STYLES = ['mixed', 'rle', 'bitpacked']
STATS = ['new', 'none', 'old', 'both', 'inexact', 'new_noflags']
MODES = OrderedDict([
    ('p1', ['SET partitions TO 1']),
    ('p1b3', ['SET partitions TO 1', 'SET batch_size TO 3']),
    ('p2', ['SET partitions TO 2']),
])


def annots(phys, logical, kw):
    if logical is None:
        return ['both']
    c = pq.Col('x', phys, logical, strict=False, **kw)
    conv, lt = pq._annotation(c)
    return ['both'] + (['converted', 'logical'] if conv is not None and lt is not None else [])


def null_mask(pat, n, rng):
    if pat in ('required', 'none'):
        return [False] * n
    if pat == 'all':
        return [True] * n
    if pat == 'alternating':
        return [i % 2 == 0 for i in range(n)]
    if pat == 'longruns':
        out, cur = [], rng.random() < 0.5
        while len(out) < n:
            out += [cur] * rng.choice((9, 17, 40, 64, 3))
            cur = not cur
        return out[:n]
    p = 0.1 if pat == 'sparse' else 0.8
    return [rng.random() < p for _ in range(n)]


class T:
    """One generated file plus expectations."""

    def __init__(self, tid, cols, rgs, wkw, tag):
        self.tid, self.cols, self.rgs, self.wkw, self.tag = tid, cols, rgs, wkw, tag
        self.path = os.path.join(DIR, 't%05d.parquet' % tid)
        self.info = pq.write_file(self.path, cols, rgs, **wkw)
        self.exp_schema = [[c.name, pq.engine_type(c)] for c in cols]
        self.exp_rows = [[pq.engine_value(c, v) for c, v in zip(cols, r)] for rg in rgs for r in rg]

    def describe(self):
        return '%s | cols=%r | rg sizes=%s | %s' % (os.path.basename(self.path), self.cols,
                                                    [len(r) for r in self.rgs], self.wkw)


def make_col_values(col, sizes, pat, rng):
    n = sum(sizes)
    vals = pq.random_values(col, n, rng, 0.0)
    mask = null_mask(pat, n, rng)
    vals = [None if m else v for v, m in zip(vals, mask)]
    out, i = [], 0
    for s in sizes:
        out.append(vals[i:i + s])
        i += s
    return out


def dodge_known_defects(col, parts):
    """Reshape data so that D1 (delta page with exactly one non-null value) and D3 (INT96 before 1970) are not
    triggered; used for every other repetition so these defects do not shadow the rest of the decoder."""
    if col.phys == 'INT96':
        for part in parts:
            part[:] = [v if v is None else (v[0], max(v[1], 2 * pq.JULIAN_EPOCH - v[1])) for v in part]
    if col.encoding not in _DELTA:
        return
    if not col.optional:
        col.page_values = None if col.page_values in (1, None) else col.page_values
    for part in parts:
        if not col.optional and len(part) == 1:
            part.append(part[0])
        st = col.page_values or max(len(part), 1)
        for i in range(0, len(part), st):
            idx = [k for k in range(i, min(i + st, len(part))) if part[k] is not None]
            if len(idx) == 1:
                if col.optional:
                    part[idx[0]] = None
                else:
                    part.append(part[-1])     # last page of a required column: give it a second value


class Deck:
    """Draws values uniformly: a shuffled deck that is reshuffled when exhausted."""

    def __init__(self, items, rng):
        self.items, self.rng, self.cur = list(items), rng, []

    def draw(self):
        if not self.cur:
            self.cur = list(self.items)
            self.rng.shuffle(self.cur)
        return self.cur.pop()


def build(seed):
    rng = random.Random(seed)
    tests, k = [], 0
    D = {n: Deck(v, rng) for n, v in dict(
        nulls=NULLPAT, pv=PAGEVALS, dm=DICTMAX, stats=STATS, ls=STYLES, ix=STYLES, legacy=[False, False, True],
        dbp=[(128, 4), (256, 8), (128, 1), (128, 4)], rg=RGSHAPES, ver=[1, 2], codec=CODECS, crc=[False, False, True],
        erp=[False, True], co=[True, True, False]).items()}
    for phys, logical, kw in TYPES:
        for annot in annots(phys, logical, kw):
            for enc in pq.valid_encodings(phys):
                probe = pq.Col('c', phys, logical, encoding=enc, annot=annot, **kw)
                dead = pq.engine_type(probe) is None or pq.unsupported_reason(probe)
                reps = 1 if dead else (8 if annot == 'both' else 3)
                for rep in range(reps):
                    k += 1
                    pat = D['nulls'].draw()
                    blk, mini = D['dbp'].draw()
                    col = pq.Col('c', phys, logical, optional=pat != 'required', encoding=enc, annot=annot,
                                 page_values=D['pv'].draw(), dict_max=D['dm'].draw() if enc == 'DICT' else None,
                                 stats=D['stats'].draw(), level_style=D['ls'].draw(), index_style=D['ix'].draw(),
                                 dict_legacy=D['legacy'].draw(), dbp_block=blk, dbp_miniblocks=mini, **kw)
                    sizes = D['rg'].draw()
                    wkw = dict(page_version=D['ver'].draw(), codec=D['codec'].draw(), crc=D['crc'].draw(),
                               empty_rg_page=D['erp'].draw(), column_orders=D['co'].draw())
                    vals = make_col_values(col, sizes, pat, rng)
                    if rep % 2 == 0:
                        dodge_known_defects(col, vals)
                    rgs = [[(v,) for v in part] for part in vals]
                    tests.append(T(len(tests), [col], rgs, wkw, (phys, logical, annot, enc)))
                    tests[-1].dims = dict(encoding=enc, nulls=pat, page_values=col.page_values, codec=wkw['codec'],
                                          page_version=wkw['page_version'], rg_shape=sizes, dict_max=col.dict_max,
                                          level_style=col.level_style, index_style=col.index_style, stats=col.stats,
                                          phys=phys, dbp=(col.dbp_block, col.dbp_miniblocks))
    # wide files: many columns with different settings in one file, bigger row counts
    def ok(phys, logical, kw, enc):
        c = pq.Col('c', phys, logical, encoding=enc, **kw)
        return pq.engine_type(c) is not None and pq.unsupported_reason(c) is None
    base = [(p_, l_, kw, e) for p_, l_, kw in TYPES for e in pq.valid_encodings(p_) if ok(p_, l_, kw, e)]
    deck = Deck(base, rng)
    for w in range(16):
        cols = []
        for j in range(6):
            phys, logical, kw, enc = deck.draw()
            while w % 4 != 3 and (enc == 'DELTA_BINARY_PACKED' or (enc in _DELTA and logical is None)):
                phys, logical, kw, enc = deck.draw()      # keep D2 / D4 out of three quarters of these files
            c = pq.Col('c%d' % j, phys, logical, optional=rng.random() < 0.8, encoding=enc,
                       page_values=rng.choice([None, 3, 50, 1000]), dict_max=rng.choice([None, 4]),
                       stats=rng.choice(STATS), level_style=rng.choice(STYLES), index_style=rng.choice(STYLES),
                       codec=rng.choice([None] + CODECS), **kw)
            cols.append(c)
        sizes = [(5000,), (2048, 2049), (700, 0, 3), (1, 1, 1)][w % 4]
        percol = [make_col_values(c, sizes, rng.choice(NULLPAT[1:]) if c.optional else 'required', rng)
                  for c in cols]
        if w % 4 != 3:
            for c, pc in zip(cols, percol):
                if c.optional:      # (required columns cannot be reshaped without changing the row count)
                    dodge_known_defects(c, pc)
                elif c.encoding in _DELTA:
                    c.page_values = None
        rgs = [list(zip(*[pc[g] for pc in percol])) for g in range(len(sizes))]
        wkw = dict(page_version=1 + w % 2, codec=CODECS[w % len(CODECS)])
        tests.append(T(len(tests), cols, rgs, wkw, ('wide', w)))
    # v2 pages whose values section is stored uncompressed although the chunk has a codec
    for codec in CODECS[1:]:
        col = pq.Col('c', 'INT64', encoding='PLAIN', v2_compressed=False, page_values=7)
        vals = make_col_values(col, (30,), 'sparse', rng)
        tests.append(T(len(tests), [col], [[(v,) for v in vals[0]]], dict(page_version=2, codec=codec),
                       ('v2_is_compressed_false', codec)))
    return tests


_DELTA = ('DELTA_BINARY_PACKED', 'DELTA_LENGTH_BYTE_ARRAY', 'DELTA_BYTE_ARRAY')
BATCH = 2048   # engine default batch_size

KNOWN_DEFECTS = OrderedDict([
    ('D1-dbp-single-value-page', 'DELTA_BINARY_PACKED header with total count 1 (no block follows, as parquet-mr/arrow '
     'write it; also the length streams of DELTA_LENGTH_BYTE_ARRAY / DELTA_BYTE_ARRAY): decoder loads a block anyway '
     '-> panic read_buffer.rs "remaining: 0, need: 1"'),
    ('D2-dbp-resume-duplicates', 'DELTA_BINARY_PACKED page consumed by more than one read call (batch boundary inside '
     'the page): every continuation re-emits the previous value, shifting all later values'),
    ('D3-int96-pre-epoch', 'INT96 with julian day < 2440588 (before 1970-01-01): u32 subtraction overflow panic in '
     'value_reader/int96.rs (release build: wraps to a far-future timestamp)'),
    ('D4-delta-binary-utf8', 'DELTA_LENGTH_BYTE_ARRAY / DELTA_BYTE_ARRAY on a plain BYTE_ARRAY (Binary) column: values '
     'are UTF-8 validated (verify_utf8 = true // TODO) -> "Did not read valid utf8"'),
    ('D5-v2-is_compressed-ignored', 'DataPageHeaderV2.is_compressed = false is ignored when the chunk has a codec: '
     'uncompressed values are fed to the decompressor -> "failed to decompress page"'),
])


def known_defect(t, mode, r):
    """Defect id if failure r of test t is explained by a known engine defect (see KNOWN_DEFECTS)."""
    kind, msg = r
    pages = [(c, pg) for g in t.info['row_groups'] for c, cm in zip(t.cols, g['columns'])
             for pg in cm['pages'] if pg['kind'] == 'data']
    if kind in ('panic', 'error') and 'utf8' not in msg and any(
            pg['encoding'] in _DELTA and pg['num_values'] - pg['num_nulls'] == 1 for c, pg in pages):
        return 'D1-dbp-single-value-page'
    if kind == 'panic' and 'subtract with overflow' in msg and any(
            c.phys == 'INT96' and v is not None and v[1] < pq.JULIAN_EPOCH
            for j, c in enumerate(t.cols) for g in t.rgs for v in (r_[j] for r_ in g)):
        return 'D3-int96-pre-epoch'
    if kind == 'rows' and any(pg['encoding'] == 'DELTA_BINARY_PACKED' for c, pg in pages) and (
            mode == 'p1b3' or any(len(g) > BATCH for g in t.rgs)):
        return 'D2-dbp-resume-duplicates'
    if kind == 'error' and 'Did not read valid utf8' in msg and any(
            pq.engine_type(c) == 'Binary' and pg['encoding'] in _DELTA[1:] for c, pg in pages):
        return 'D4-delta-binary-utf8'
    if kind == 'error' and 'failed to decompress page' in msg and t.wkw.get('page_version') == 2 and any(
            not c.v2_compressed for c in t.cols):
        return 'D5-v2-is_compressed-ignored'
    return None


def expect_supported(t):
    """False if the engine is known to reject the file (an unsupported encoding only matters once a data
    page exists: empty row groups written without pages read fine)."""
    for j, c in enumerate(t.cols):
        if pq.engine_type(c) is None or any(k in pq.UNSUPPORTED['types'] for k in
                                            ((c.phys, c.logical, c.annot), (c.phys, c.logical, '*'))):
            return False
        if pq.unsupported_reason(c) and any(pg['num_values'] for g in t.info['row_groups']
                                            for pg in g['columns'][j]['pages']):
            return False
    return True


def canon(rows):
    return sorted(json.dumps(r, sort_keys=True) for r in rows)


def check_step(t, mode, st):
    """-> None if fine else (kind, detail)."""
    if st is None:
        return ('no-result', '')
    if st.get('outcome') != 'rows':
        if st.get('outcome') == 'panic':
            return ('panic', '%s @ %s' % (st.get('panic_msg'), st.get('panic_loc')))
        msg = (st.get('error') or '').split('\nBacktrace')[0].replace('\n', ' | ')
        return (st.get('outcome', '?'), msg[:300])
    if st.get('schema') != t.exp_schema:
        return ('schema', 'got %s expected %s' % (st.get('schema'), t.exp_schema))
    got = st.get('rows')
    if mode == 'p2':
        ok = canon(got) == canon(t.exp_rows)
    else:
        ok = got == t.exp_rows
    if ok:
        return None
    if len(got) != len(t.exp_rows):
        return ('rows', 'row count %d expected %d' % (len(got), len(t.exp_rows)))
    if mode == 'p2':
        return ('rows', 'multiset differs')
    i = next(i for i, (a, b) in enumerate(zip(got, t.exp_rows)) if a != b)
    nbad = sum(1 for a, b in zip(got, t.exp_rows) if a != b)
    return ('rows', '%d rows differ; first at row %d: got %s expected %s'
            % (nbad, i, json.dumps(got[i])[:200], json.dumps(t.exp_rows[i])[:200]))


def eq_probe(t):
    """For single integer columns: a value v present in the file, to run `WHERE c = v` (exercises row-group
    pruning against the statistics this writer produced: a wrong min/max would lose rows)."""
    c = t.cols[0]
    if len(t.cols) != 1 or not expect_supported(t) or (pq.engine_type(c) or '')[:3] not in ('Int', 'UIn'):
        return None
    vs = [r[0] for g in t.rgs for r in g if r[0] is not None and -2 ** 63 <= r[0] < 2 ** 63]
    return vs[len(vs) // 2] if vs else None


def run_tests(tests):
    cases = []
    for t in tests:
        for mode, sets in MODES.items():
            steps = [{'sql': s} for s in sets] + [{'sql': "select * from read_parquet('%s')" % t.path}]
            cases.append({'id': '%d:%s' % (t.tid, mode), 'steps': steps})
        v = eq_probe(t)
        if v is not None:
            cases.append({'id': '%d:eq' % t.tid, 'steps': [
                {'sql': 'SET partitions TO 1'},
                {'sql': "select * from read_parquet('%s') where c = %d" % (t.path, v)}]})
    res, meta = run.run_cases(cases, wall_s=1800)
    out = {}
    for t in tests:
        v = eq_probe(t)
        if v is not None:
            r = res.get('%d:eq' % t.tid, {})
            st = r['steps'][-1] if 'steps' in r else None
            want = [row for row in t.exp_rows if row[0] == pq.engine_value(t.cols[0], v)]
            if st is None:
                out[(t.tid, 'eq')] = ('died', str(r)[:300])
            elif st.get('outcome') != 'rows':
                out[(t.tid, 'eq')] = check_step(t, 'eq', st)
            elif st['rows'] != want:
                out[(t.tid, 'eq')] = ('eq-rows', 'where c = %d: got %d rows expected %d' % (v, len(st['rows']), len(want)))
            else:
                out[(t.tid, 'eq')] = None
        for mode in MODES:
            r = res.get('%d:%s' % (t.tid, mode), {})
            if 'died' in r:
                d = r['died']
                out[(t.tid, mode)] = ('died', (str(d.get('panic_hook') or '') + ' ' +
                                               str(d.get('stderr_tail') or ''))[-400:])
            elif 'steps' not in r:
                out[(t.tid, mode)] = ('no-result', str(r)[:200])
            else:
                out[(t.tid, mode)] = check_step(t, mode, r['steps'][-1])
    return out, meta


# ---- structural re-parse of the written bytes with a minimal independent thrift-compact decoder
def _uv(b, i):
    r = sh = 0
    while True:
        x = b[i]
        i += 1
        r |= (x & 0x7F) << sh
        sh += 7
        if not x & 0x80:
            return r, i


def _tval(b, i, ct):
    if ct in (1, 2):
        return ct == 1, i
    if ct == 3:
        return b[i], i + 1
    if ct in (4, 5, 6):
        n, i = _uv(b, i)
        return (n >> 1) ^ -(n & 1), i
    if ct == 7:
        return b[i:i + 8], i + 8
    if ct == 8:
        n, i = _uv(b, i)
        return bytes(b[i:i + n]), i + n
    if ct in (9, 10):
        h = b[i]
        i += 1
        n = h >> 4
        if n == 15:
            n, i = _uv(b, i)
        out = []
        for _ in range(n):
            if h & 15 in (1, 2):
                v, i = b[i] == 1, i + 1
            else:
                v, i = _tval(b, i, h & 15)
            out.append(v)
        return out, i
    if ct == 12:
        return tstruct(b, i)
    raise ValueError('thrift type %d' % ct)


def tstruct(b, i=0):
    out, last = {}, 0
    while True:
        h = b[i]
        i += 1
        if h == 0:
            return out, i
        if h >> 4:
            fid = last + (h >> 4)
        else:
            z, i = _uv(b, i)
            fid = (z >> 1) ^ -(z & 1)
        out[fid], i = _tval(b, i, h & 15)
        last = fid


def structural_check(t):
    """Offsets / sizes reported by write_file and stored in the footer agree with the bytes on disk."""
    import zlib
    b = open(t.path, 'rb').read()
    info, errs = t.info, []

    def chk(c, msg):
        if not c:
            errs.append(msg)
    chk(b[:4] == b'PAR1' and b[-4:] == b'PAR1' and len(b) == info['file_size'], 'magic/size')
    flen = int.from_bytes(b[-8:-4], 'little')
    chk(flen == info['footer_len'] and info['footer_off'] + flen + 8 == len(b), 'footer position')
    fmd, end = tstruct(b, info['footer_off'])
    chk(end == len(b) - 8, 'footer length')
    chk(fmd[3] == info['num_rows'] and len(fmd[4]) == len(info['row_groups']) and len(fmd[2]) == len(t.cols) + 1,
        'file metadata')
    for gi, (g, tg) in enumerate(zip(info['row_groups'], fmd[4])):
        chk(tg[3] == g['num_rows'] and tg[2] == g['total_byte_size'], 'rg%d header' % gi)
        for ci, (c, tc) in enumerate(zip(g['columns'], tg[1])):
            md, w = tc[3], 'rg%d.col%d ' % (gi, ci)
            pos, unc, nv, first_data = c['file_offset'], 0, 0, None
            for pg in c['pages']:
                hdr, e = tstruct(b, pos)
                chk(pos == pg['header_off'] and e - pos == pg['header_len'] and e == pg['body_off'], w + 'page offsets')
                chk(hdr.get(3) == pg['body_len'], w + 'compressed_page_size')
                chk({2: 'dict', 0: 'data', 3: 'data'}[hdr[1]] == pg['kind'], w + 'page type')
                if pg['kind'] == 'data':
                    first_data = pos if first_data is None else first_data
                    nv += (hdr.get(5) or hdr.get(8))[1]
                if c['codec'] == 'GZIP' and hdr[1] != 3:
                    chk(len(zlib.decompress(b[e:e + pg['body_len']], 31)) == hdr[2], w + 'gzip length')
                if c['codec'] == 'UNCOMPRESSED':
                    chk(hdr[2] == hdr[3], w + 'uncompressed size')
                unc += pg['header_len'] + hdr[2]
                pos = pg['body_off'] + pg['body_len']
            chk(pos - c['file_offset'] == c['total_compressed_size'] == md[7], w + 'total_compressed_size')
            chk(unc == c['total_uncompressed_size'] == md[6], w + 'total_uncompressed_size')
            chk(nv == c['num_values'] == md[5] == g['num_rows'], w + 'num_values')
            chk(md[9] == c['data_page_offset'] and (first_data is None or first_data == md[9]), w + 'data_page_offset')
            chk(md.get(11) == c['dictionary_page_offset'] and
                (md.get(11) is None or md[11] == c['file_offset']), w + 'dictionary_page_offset')
            st = md.get(12)
            if st is not None:
                chk(st.get(3) == c['null_count'], w + 'null_count')
                chk((st.get(6, st.get(2)), st.get(5, st.get(1))) == (c['min'], c['max']), w + 'min/max')
    return errs


def metadata_checks(tests):
    """Cross-check the dict returned by write_file with parquet.*_metadata table functions."""
    bad = []
    sample = [t for t in tests if expect_supported(t)][::9]
    cases = [{'id': 'm%d' % t.tid, 'steps': [
        {'sql': "select num_rows, num_row_groups, created_by from parquet.file_metadata('%s')" % t.path},
        {'sql': "select ordinal, num_rows, num_columns, uncompressed_size from parquet.rowgroup_metadata('%s') order by 1" % t.path},
        {'sql': "select rowgroup_ordinal, column_ordinal, physical_type, file_offset, num_values, total_compressed_size, "
                "total_uncompressed_size, data_page_offset from parquet.column_metadata('%s') order by 1, 2" % t.path}]}
        for t in sample]
    res, _ = run.run_cases(cases)
    for t in sample:
        r = res.get('m%d' % t.tid, {})
        st = r.get('steps')
        if not st or any(s.get('outcome') != 'rows' for s in st):
            bad.append((t, 'metadata query failed: %s' % str(r)[:300]))
            continue
        info = t.info
        exp0 = [[info['num_rows'], len(info['row_groups']), 'vf-pqwrite']]
        exp1 = [[i, g['num_rows'], len(g['columns']), g['total_byte_size']] for i, g in enumerate(info['row_groups'])]
        exp2 = [[i, j, c2.phys, c['file_offset'], c['num_values'], c['total_compressed_size'],
                 c['total_uncompressed_size'], c['data_page_offset']]
                for i, g in enumerate(info['row_groups']) for j, (c, c2) in enumerate(zip(g['columns'], t.cols))]
        for name, got, exp in (('file', st[0]['rows'], exp0), ('rowgroup', st[1]['rows'], exp1),
                               ('column', st[2]['rows'], exp2)):
            if got != exp:
                bad.append((t, '%s metadata: got %s expected %s' % (name, str(got)[:300], str(exp)[:300])))
    return bad, len(sample)


def lie_checks():
    """The lie mechanism changes exactly the addressed field (observed through metadata functions)."""
    bad = []
    col = pq.Col('c', 'INT32', encoding='DICT', page_values=4)
    rows = [[(i % 3,) for i in range(10)]]
    p = os.path.join(DIR, 'lie.parquet')
    specs = [
        ({'num_rows': 7}, "select num_rows from parquet.file_metadata('%s')", [[7]]),
        ({'rg0.num_rows': 3}, "select num_rows from parquet.rowgroup_metadata('%s')", [[3]]),
        ({'rg0.col0.num_values': 99, 'rg0.col0.total_compressed_size': 12345},
         "select num_values, total_compressed_size from parquet.column_metadata('%s')", [[99, 12345]]),
        ({'created_by': 'liar', 'rg0.col0.page1.num_values': 2, 'rg0.col0.dict.num_values': 3,
          'rg0.col0.stats.null_count': 5, 'col0.name': 'zz', 'rg0.col0.dictionary_page_offset': pq.OMIT},
         "select created_by from parquet.file_metadata('%s')", [['liar']]),
    ]
    cases = []
    for i, (lies, sql, exp) in enumerate(specs):
        pi = p.replace('lie', 'lie%d' % i)
        pq.write_file(pi, [col], rows, lies=lies)
        cases.append({'id': 'l%d' % i, 'steps': [{'sql': sql % pi}]})
    res, _ = run.run_cases(cases)
    for i, (lies, sql, exp) in enumerate(specs):
        st = res['l%d' % i]['steps'][0]
        if st.get('rows') != exp:
            bad.append('lie %r: got %s %s expected %s' % (lies, st.get('rows'), st.get('error'), exp))
    # the documented example keys: re-parse the bytes and look the falsified field up by thrift field id
    cols2 = [pq.Col('a', 'FIXED_LEN_BYTE_ARRAY', 'FLOAT16', encoding='DICT', page_values=4), pq.Col('b', 'INT64')]
    rows2 = [[(float(i % 3), i) for i in range(10)]]

    def page(b, info, ci, k):
        return tstruct(b, info['row_groups'][0]['columns'][ci]['pages'][k]['header_off'])[0]
    foot = lambda b, info: tstruct(b, info['footer_off'])[0]
    cmeta = lambda b, info, ci: foot(b, info)[4][0][1][ci][3]
    examples = [
        ({'rg0.num_rows': -1}, lambda b, i: foot(b, i)[4][0][3]),
        ({'rg0.col1.total_compressed_size': 2 ** 62}, lambda b, i: cmeta(b, i, 1)[7]),
        ({'rg0.col0.data_page_offset': 1 << 40}, lambda b, i: cmeta(b, i, 0)[9]),
        ({'rg0.col0.page1.num_values': 2 ** 31 - 1}, lambda b, i: page(b, i, 0, 2)[5][1]),
        ({'rg0.col0.page0.uncompressed_page_size': 2 ** 31 - 1}, lambda b, i: page(b, i, 0, 1)[2]),
        ({'rg0.col0.page0.compressed_page_size': 1}, lambda b, i: page(b, i, 0, 1)[3]),
        ({'rg0.col0.dict.num_values': 0}, lambda b, i: page(b, i, 0, 0)[7][1]),
        ({'rg0.col0.num_values': 2 ** 63 - 1}, lambda b, i: cmeta(b, i, 0)[5]),
        ({'col0.type_length': 0}, lambda b, i: foot(b, i)[2][1][2]),
        ({'rg0.col0.codec': 99}, lambda b, i: cmeta(b, i, 0)[4]),
        ({'rg0.col0.page0.encoding': 99}, lambda b, i: page(b, i, 0, 1)[5][2]),
        ({'rg0.col0.page0.definition_level_encoding': 4}, lambda b, i: page(b, i, 0, 1)[5][3]),
        ({'rg0.col1.stats.min_value': b'\x01'}, lambda b, i: cmeta(b, i, 1)[12][6]),
        ({'rg0.col0.file_offset': 3}, lambda b, i: foot(b, i)[4][0][1][0][2]),
    ]
    for lies, get in examples:
        info = pq.write_file(p, cols2, rows2, lies=lies)
        b = open(p, 'rb').read()
        want = list(lies.values())[0]
        t2 = type('X', (), {'path': p, 'info': info, 'cols': cols2})
        if get(b, info) != want:
            bad.append('lie %r not found in bytes (got %r)' % (lies, get(b, info)))
        # everything not lied about must still be consistent with the bytes
        other = [e for e in structural_check(t2) if not any(w in e for w in (
            'rg0 header', 'total_compressed_size', 'data_page_offset', 'num_values', 'compressed_page_size',
            'uncompressed size', 'total_uncompressed_size', 'min/max'))]
        if other:
            bad.append('lie %r broke structure: %s' % (lies, other))
    v2 = pq.write_file(p, [pq.Col('b', 'INT64')], [[(1,), (None,)]], page_version=2,
                       lies={'rg0.col0.page0.num_nulls': 7, 'rg0.col0.page0.is_compressed': True})
    h = tstruct(open(p, 'rb').read(), v2['row_groups'][0]['columns'][0]['pages'][0]['header_off'])[0]
    if h[8][2] != 7 or h[8][7] is not True:
        bad.append('v2 page header lies not applied: %r' % h)
    try:
        pq.write_file(p, [col], rows, lies={'rg0.col0.nonsense': 1})
        bad.append('unknown lie key accepted')
    except ValueError:
        pass
    return bad, len(specs) + len(examples) + 2


def main(argv):
    seed = int(argv[argv.index('--seed') + 1]) if '--seed' in argv else 20260923
    verbose = '-v' in argv
    shutil.rmtree(DIR, ignore_errors=True)
    os.makedirs(DIR)
    tests = build(seed)
    print('generated %d files (%d bytes) in %s' % (len(tests), sum(t.info['file_size'] for t in tests), DIR))
    results, meta = run_tests(tests)
    byid = {t.tid: t for t in tests}
    n_ok = n_unsup_ok = 0
    mism, unsup_observed, unsup_stale, known = OrderedDict(), OrderedDict(), [], OrderedDict()
    for (tid, mode), r in results.items():
        t = byid[tid]
        if expect_supported(t):
            if r is None:
                n_ok += 1
            elif known_defect(t, mode, r):
                known.setdefault(known_defect(t, mode, r), []).append((t, mode, r))
            else:
                mism.setdefault((t.tag, r[0], r[1][:80]), []).append((t, mode, r))
        else:
            if r is not None and r[0] == 'error':
                n_unsup_ok += 1
                unsup_observed.setdefault(t.tag, r[1][:150])
            elif r is None:
                unsup_stale.append((t, mode))
            elif known_defect(t, mode, r):
                known.setdefault(known_defect(t, mode, r), []).append((t, mode, r))
            else:
                mism.setdefault((t.tag, r[0], r[1][:80]), []).append((t, mode, r))
    cov = OrderedDict()
    for (tid, mode), r in results.items():
        t = byid[tid]
        if hasattr(t, 'dims') and expect_supported(t):
            for k, v in t.dims.items():
                if (k == 'dict_max' and t.dims['encoding'] != 'DICT') or (k == 'dbp' and t.dims['encoding'] not in _DELTA):
                    continue
                c = cov.setdefault(k, OrderedDict()).setdefault(str(v), [0, 0])
                c[0] += r is None
                c[1] += 1
    print('\n== coverage of supported single-column files: passing reads / reads per dimension value ==')
    holes = []
    for k, d in cov.items():
        print('  %-13s %s' % (k, '  '.join('%s:%d/%d' % (v, a, b) for v, (a, b) in sorted(d.items()))))
        holes += ['%s=%s' % (k, v) for v, (a, b) in d.items() if a == 0]
    if holes:
        print('  NO PASSING READ for: %s' % holes)
    wide = [(r is None) for (tid, mode), r in results.items() if byid[tid].tag[0] == 'wide']
    print('  multi-column files (6 columns, up to 5000 rows): %d/%d reads pass' % (sum(wide), len(wide)))
    sbad = [(t, e) for t in tests for e in structural_check(t)]
    mbad, mcount = metadata_checks(tests)
    lbad, lcount = lie_checks()
    print('\n== summary ==')
    print('read checks: %d ok, %d expected-unsupported (clean error), %d explained by known engine defects, '
          '%d UNEXPLAINED, vdrive restarts=%s' % (n_ok, n_unsup_ok, sum(len(v) for v in known.values()),
                                                  sum(len(v) for v in mism.values()), meta.get('restarts')))
    for d, lst in known.items():
        t, mode, r = min(lst, key=lambda x: x[0].info['num_rows'] * len(x[0].cols))
        print('\n  known defect %s: %d reads\n    %s\n    smallest example [%s] %s\n      -> %s: %s'
              % (d, len(lst), KNOWN_DEFECTS[d], mode, t.describe()[:500], r[0], r[1][:200]))
    print('structural re-parse of all %d files: %d problems' % (len(tests), len(sbad)))
    for t, e in sbad[:20]:
        print('  STRUCT', e, t.describe()[:300])
    print('metadata cross-checks: %d files, %d bad;  lie checks: %d, %d bad' % (mcount, len(mbad), lcount, len(lbad)))
    for t, msg in mbad:
        print('  META', t.describe(), msg)
    for msg in lbad:
        print('  LIE', msg)
    if unsup_stale:
        print('\n== listed in pqwrite.UNSUPPORTED (or no engine type) but read fine ==')
        for t, mode in unsup_stale[:20]:
            print('  ', mode, t.describe())
    if '--show-unsupported' in argv:
        print('\n== unsupported as observed ==')
        for tag, err in unsup_observed.items():
            print('  ', tag, '->', err)
    if mism:
        print('\n== mismatches (grouped by type/encoding, kind, message) ==')
        for key, lst in mism.items():
            print('\n* %s: %d reads' % (key, len(lst)))
            for t, mode, r in (lst if verbose else lst[:2]):
                print('    [%s] %s\n        -> %s: %s' % (mode, t.describe()[:600], r[0], r[1]))
            if not verbose and len(lst) > 2:
                print('    ... ids: %s' % ' '.join('%d:%s' % (t.tid, m) for t, m, _ in lst[2:40]))
    if '--keep' not in argv:
        shutil.rmtree(DIR, ignore_errors=True)
    return 1 if (mism or mbad or lbad or sbad or unsup_stale or holes) else 0


if __name__ == '__main__':
    sys.exit(main(sys.argv[1:]))
